"""Behavioural stand-in for the parts of gmpy2 that mpmath uses (the real C extension is not installable in this
sandbox).  It makes `mpmath.libmp.backend.BACKEND == 'gmpy'`, so that every gmpy-specific branch of the repository
runs: MPZ = mpz (a distinct integer type that is closed under arithmetic, as gmpy2.mpz is), gmpy_mpf_mul, the
bit_length / bit_scan1 based bitcount and trailing, numeral_gmpy via digits(), isqrt / isqrt_rem / fac rebinding, the
backend-dependent algorithm cutoffs, and normalize / from_man_exp replaced by _mpmath_normalize / _mpmath_create.
Only documented gmpy2 semantics are implemented; this file contains no mpmath code."""
import math as _math
import sys as _sys

try:
    _sys.set_int_max_str_digits(0)      # gmpy2.digits has no size limit
except AttributeError:
    pass

__shim__ = True


def version():
    return "2.1.5"


def _w(x):
    return mpz(x) if type(x) is int else x


class mpz(int):
    __slots__ = ()

    def __new__(cls, x=0, base=None):
        if base is not None:
            return int.__new__(cls, x, base)
        return int.__new__(cls, x)

    def bit_scan1(self, start=0):
        v = int(self) >> start
        if v == 0:
            return None
        return start + ((v & -v).bit_length() - 1)

    def digits(self, base=10):
        return digits(self, base)

    def __repr__(self):
        return "mpz(%d)" % int(self)

    def __str__(self):
        return int.__repr__(self)
    __hash__ = int.__hash__

    def __pow__(self, e, m=None):
        r = int.__pow__(self, e, m) if m is not None else int.__pow__(self, e)
        return _w(r)

    def __rpow__(self, b, m=None):
        r = int.__rpow__(self, b, m) if m is not None else int.__rpow__(self, b)
        return _w(r)

    def __divmod__(self, o):
        r = int.__divmod__(self, o)
        return r if r is NotImplemented else (_w(r[0]), _w(r[1]))

    def __rdivmod__(self, o):
        r = int.__rdivmod__(self, o)
        return r if r is NotImplemented else (_w(r[0]), _w(r[1]))


def _mk(name):
    f = getattr(int, name)

    def g(self, *a):
        return _w(f(self, *a))
    g.__name__ = name
    return g


for _n in ("__add__", "__radd__", "__sub__", "__rsub__", "__mul__", "__rmul__", "__floordiv__", "__rfloordiv__",
           "__mod__", "__rmod__", "__lshift__", "__rlshift__", "__rshift__", "__rrshift__", "__and__", "__rand__",
           "__or__", "__ror__", "__xor__", "__rxor__", "__neg__", "__pos__", "__abs__", "__invert__"):
    setattr(mpz, _n, _mk(_n))


def bit_length(n):
    return int(n).bit_length()


def digits(n, base=10):
    n = int(n)
    if base == 10:
        return str(n)
    if not 2 <= base <= 62:
        raise ValueError("base must be in the interval 2 ... 62")
    alphabet = "0123456789abcdefghijklmnopqrstuvwxyz" if base <= 36 else \
        "0123456789ABCDEFGHIJKLMNOPQRSTUVWXYZabcdefghijklmnopqrstuvwxyz"
    if n == 0:
        return "0"
    s = []
    m = abs(n)
    while m:
        m, r = divmod(m, base)
        s.append(alphabet[r])
    return ("-" if n < 0 else "") + "".join(reversed(s))


def isqrt(n):
    return mpz(_math.isqrt(int(n)))


def isqrt_rem(n):
    n = int(n)
    r = _math.isqrt(n)
    return mpz(r), mpz(n - r * r)


def fac(n):
    return mpz(_math.factorial(int(n)))


def _round_shift(sign, man, shift, rnd):
    """man >> shift (man > 0) rounded in direction rnd for a number of the given sign"""
    if rnd == 'n':
        t = man >> (shift - 1)
        if t & 1 and ((t & 2) or (man & ((1 << (shift - 1)) - 1))):
            return (t >> 1) + 1
        return t >> 1
    if rnd == 'd' or (rnd == 'f' and not sign) or (rnd == 'c' and sign):
        return man >> shift
    return -((-man) >> shift)


def _mpmath_normalize(sign, man, exp, bc, prec, rnd):
    """documented semantics: (sign, man, exp, bc) with man > 0 of bc bits -> value rounded to prec bits in direction rnd
    ('n' nearest-even, 'f' floor, 'c' ceiling, 'd' towards zero, 'u' away from zero), mantissa odd, zero -> (0, 0, 0, 0)"""
    man = int(man)
    if not man:
        return (0, mpz(0), 0, 0)
    n = bc - prec
    if n > 0:
        man = _round_shift(sign, man, n, rnd)
        exp += n
        bc = prec
    if not man & 1:
        t = (man & -man).bit_length() - 1
        man >>= t
        exp += t
        bc -= t
    if man == 1:
        bc = 1
    return (sign, mpz(man), exp, bc)


def _mpmath_create(man, exp, prec=0, rnd='f'):
    """documented semantics: man * 2**exp as a normalised mpmath tuple, rounded to prec bits unless prec == 0"""
    man = int(man)
    if not man:
        return (0, mpz(0), 0, 0)
    sign = 0
    if man < 0:
        man = -man
        sign = 1
    bc = man.bit_length()
    if not prec:
        prec = bc
    return _mpmath_normalize(sign, man, exp, bc, prec, rnd)
