"""Shared plumbing: result objects, the Hypothesis driver (collect mode + shrink mode),
shard workers, digesting of cases."""
import hashlib
import json
import os
import sys
import time
import traceback

try:
    sys.set_int_max_str_digits(0)
except AttributeError:  # pragma: no cover
    pass

REPO = os.environ.get("VERIF_REPO", "/repo")
HOME = os.environ.get("VERIF_HOME", os.path.dirname(os.path.dirname(os.path.abspath(__file__))))


class R:
    """outcome of checking one case"""
    __slots__ = ("violations", "nontrivial", "cls", "inconclusive", "rejected", "metrics", "n")

    def __init__(self):
        self.violations = []      # list of (bucket, message)
        self.nontrivial = False
        self.cls = ""             # class label for the histogram
        self.inconclusive = False
        self.rejected = False
        self.metrics = {}         # name -> number (max is kept)
        self.n = 1                # evaluations this case stands for

    def bad(self, bucket, msg):
        self.violations.append((bucket, str(msg)[:1500]))
        return self


class HarnessError(Exception):
    pass


def digest(case):
    s = json.dumps(case, sort_keys=True, default=str)
    return hashlib.sha1(s.encode()).digest()[:8]


def case_size(case):
    return len(json.dumps(case, default=str))


def in_repo_frame(tb):
    """innermost traceback frame that lives in the repository's mpmath package, or None"""
    hit = None
    for fs in traceback.extract_tb(tb):
        fn = fs.filename.replace("\\", "/")
        if "/mpmath/" in fn and "/mpref" not in fn and "/verif/" not in fn.replace(REPO, ""):
            hit = "%s:%s" % (os.path.basename(fn), fs.name)
    return hit


def run_check(module, case):
    """check one case; exceptions escaping from inside mpmath are violations, exceptions of the
    harness itself are harness errors"""
    try:
        with time_limit(getattr(module, "CASE_TIMEOUT", 120.0)):
            res = module.check_case(case)
    except CaseTimeout:
        # A wall-clock limit is normally only a safety net (inconclusive).  Modules whose every case is a
        # micro-second integer kernel may declare HANG_IS_VIOLATION: there a case that does not finish within
        # CASE_TIMEOUT (>= 10^5 times the normal cost) is reported as a hang.
        res = R()
        if getattr(module, "HANG_IS_VIOLATION", False):
            res.bad("hang", "case did not finish within %.0f s: %s" % (getattr(module, "CASE_TIMEOUT", 120.0),
                                                                     json.dumps(case, default=str)[:600]))
        else:
            res.inconclusive = True
        return res
    except HarnessError:
        raise
    except RecursionError:
        raise
    except Exception as e:  # noqa
        where = in_repo_frame(e.__traceback__)
        last = traceback.extract_tb(e.__traceback__)[-1]
        lastfn = last.filename.replace("\\", "/")
        if where is not None and "/mpmath/" in lastfn and "/mpref" not in lastfn:
            res = R()
            res.bad("exception:%s@%s" % (type(e).__name__, where),
                    "undocumented exception %s: %s" % (type(e).__name__, e))
        else:
            raise HarnessError("harness error on case %s\n%s" % (
                json.dumps(case, default=str)[:2000], traceback.format_exc()))
    return res


class Collector:
    def __init__(self):
        self.evaluations = 0
        self.nt = set()
        self.hist = {}
        self.samples = {}
        self.viol = {}          # bucket -> list of (size, case, msg) (few smallest)
        self.nviol = 0
        self.inconclusive = 0
        self.rejected = 0
        self.metrics = {}
        self.last_target_case = None

    def add(self, case, res):
        self.evaluations += res.n
        if res.inconclusive:
            self.inconclusive += 1
        if res.rejected:
            self.rejected += 1
        cls = res.cls or case.get("op", "") if isinstance(case, dict) else res.cls
        self.hist[cls] = self.hist.get(cls, 0) + 1
        if res.nontrivial:
            self.nt.add(digest(case))
            if cls not in self.samples and len(self.samples) < 40:
                self.samples[cls] = case
        for k, v in res.metrics.items():
            if k not in self.metrics or v > self.metrics[k]:
                self.metrics[k] = v
        for bucket, msg in res.violations:
            self.nviol += 1
            lst = self.viol.setdefault(bucket, [])
            sz = case_size(case)
            if len(lst) < 4:
                lst.append((sz, case, msg))
                lst.sort(key=lambda x: x[0])
            elif sz < lst[-1][0]:
                lst[-1] = (sz, case, msg)
                lst.sort(key=lambda x: x[0])

    def export(self):
        return {
            "evaluations": self.evaluations,
            "nt": self.nt,
            "hist": self.hist,
            "samples": self.samples,
            "viol": self.viol,
            "nviol": self.nviol,
            "inconclusive": self.inconclusive,
            "rejected": self.rejected,
            "metrics": self.metrics,
        }


def _settings(n, shrink):
    from hypothesis import settings, HealthCheck, Phase, Verbosity
    phases = [Phase.generate, Phase.shrink] if shrink else [Phase.generate]
    return settings(max_examples=n, database=None, deadline=None, derandomize=False,
                    report_multiple_bugs=False, suppress_health_check=list(HealthCheck),
                    phases=phases, verbosity=Verbosity.quiet, print_blob=False)


def drive(module, shard, seed, n, tier, target=None, known=None, time_cap=None):
    """Run n generated cases of `shard`.  Collect mode when target is None; otherwise raise on
    violations whose bucket == target (and that are not known) so that Hypothesis shrinks."""
    import hypothesis
    from hypothesis import given, strategies as st
    from .gen import D
    coll = Collector()
    t0 = time.time()
    state = {"stop": False}

    @hypothesis.seed(seed)
    @_settings(n, target is not None)
    @given(st.data())
    def prop(data):
        d = D(data)
        case = module.gen_case(d, shard, tier)
        if case is None:
            return
        res = run_check(module, case)
        if d.labels and not res.cls:
            res.cls = "|".join(d.labels[:3])
        coll.add(case, res)
        if target is not None:
            for bucket, msg in res.violations:
                if bucket == target and not (known and known(case, bucket)):
                    if time_cap and time.time() - t0 > time_cap:
                        state["stop"] = True
                    coll.last_target_case = (case, msg)
                    raise AssertionError(bucket)

    try:
        prop()
    except AssertionError:
        pass
    except HarnessError:
        raise
    except Exception as e:  # hypothesis' own complaints (Flaky etc.) when shrinking
        if target is None:
            raise
    return coll


def shard_worker(args):
    """runs in a fresh spawned process"""
    modname, shard, seed, n, tier = args
    import importlib
    t0 = time.time()
    try:    # die with the parent (PR_SET_PDEATHSIG) so that a killed check leaves no spinning workers behind
        import ctypes, signal
        ctypes.CDLL("libc.so.6").prctl(1, signal.SIGKILL)
    except Exception:
        pass
    try:
        module = importlib.import_module(modname)
        out = None
        if hasattr(module, "custom_shard"):
            out = module.custom_shard(shard, seed, n, tier)
        if out is None:
            coll = drive(module, shard, seed, n, tier)
            out = coll.export()
        out["shard"] = shard
        out["seed"] = seed
        out["wall"] = time.time() - t0
        return out
    except BaseException:
        return {"shard": shard, "seed": seed, "error": traceback.format_exc()}


def shard_entry(job, conn):
    try:
        conn.send(shard_worker(job))
    finally:
        conn.close()


def shrink_entry(args, conn):
    try:
        import ctypes, signal
        ctypes.CDLL("libc.so.6").prctl(1, signal.SIGKILL)
    except Exception:
        pass
    try:
        conn.send(shrink_worker(args))
    finally:
        conn.close()


def shrink_worker(args):
    modname, shard, seed, n, tier, bucket, known_ids = args
    import importlib
    try:
        module = importlib.import_module(modname)
        from . import findings
        known = findings.matcher(module, only_known=True)
        coll = drive(module, shard, seed, n, tier, target=bucket, known=known, time_cap=120)
        return coll.last_target_case
    except BaseException:
        return None


class CaseTimeout(BaseException):
    """raised by time_limit; a case that hits it is *inconclusive*, never a violation"""


class time_limit:
    """wall-clock safety net around one call (main thread of a worker process only)"""

    def __init__(self, seconds):
        self.seconds = seconds

    def _handler(self, signum, frame):
        raise CaseTimeout()

    def __enter__(self):
        import signal
        self._t0 = time.time()
        self._outer = signal.getitimer(signal.ITIMER_REAL)[0]      # remaining time of an enclosing limit
        self._old = signal.signal(signal.SIGALRM, self._handler)
        lim = self.seconds if not self._outer else min(self.seconds, self._outer)
        signal.setitimer(signal.ITIMER_REAL, lim)
        return self

    def __exit__(self, et, ev, tb):
        import signal
        signal.setitimer(signal.ITIMER_REAL, 0)
        signal.signal(signal.SIGALRM, self._old)
        if self._outer:
            signal.setitimer(signal.ITIMER_REAL, max(0.01, self._outer - (time.time() - self._t0)))
        return False
