"""O2 -- MPFR / MPC through ctypes: an independent, correctly rounded reference.

Values are exchanged as raw mpf tuples (sign, man, exp, bc).  All MPFR computations use the
maximal exponent range, so no overflow/underflow occurs for the magnitudes generated here.
"""
import ctypes
import ctypes.util
from ctypes import c_long, c_int, c_void_p, c_char_p, c_ulong, c_double, byref, POINTER, Structure

from .exact import fzero, finf, fninf, fnan, mk

try:
    _mpfr = ctypes.CDLL("libmpfr.so.6")
    _gmp = ctypes.CDLL("libgmp.so.10")
    AVAILABLE = True
except OSError:  # pragma: no cover
    _mpfr = _gmp = None
    AVAILABLE = False
try:
    _mpc = ctypes.CDLL("libmpc.so.3")
    MPC_AVAILABLE = True
except OSError:  # pragma: no cover
    _mpc = None
    MPC_AVAILABLE = False


class mpz_t(Structure):
    _fields_ = [("alloc", c_int), ("size", c_int), ("d", c_void_p)]


class mpfr_t(Structure):
    _fields_ = [("prec", c_long), ("sign", c_int), ("exp", c_long), ("d", c_void_p)]


class mpc_t(Structure):
    _fields_ = [("re", mpfr_t), ("im", mpfr_t)]


RNDN, RNDZ, RNDU, RNDD, RNDA = 0, 1, 2, 3, 4
RND = {"n": RNDN, "d": RNDZ, "c": RNDU, "f": RNDD, "u": RNDA}

if AVAILABLE:
    _mpfr.mpfr_set_emin.argtypes = [c_long]
    _mpfr.mpfr_set_emax.argtypes = [c_long]
    _mpfr.mpfr_get_emin_min.restype = c_long
    _mpfr.mpfr_get_emax_max.restype = c_long
    _mpfr.mpfr_set_emin(_mpfr.mpfr_get_emin_min())
    _mpfr.mpfr_set_emax(_mpfr.mpfr_get_emax_max())
    _mpfr.mpfr_get_z_2exp.restype = c_long
    _mpfr.mpfr_get_z_2exp.argtypes = [POINTER(mpz_t), POINTER(mpfr_t)]
    _mpfr.mpfr_set_z_2exp.argtypes = [POINTER(mpfr_t), POINTER(mpz_t), c_long, c_int]
    _mpfr.mpfr_init2.argtypes = [POINTER(mpfr_t), c_long]
    _mpfr.mpfr_clear.argtypes = [POINTER(mpfr_t)]
    _gmp.__gmpz_init.argtypes = [POINTER(mpz_t)]
    _gmp.__gmpz_clear.argtypes = [POINTER(mpz_t)]
    _gmp.__gmpz_set_str.argtypes = [POINTER(mpz_t), c_char_p, c_int]
    _gmp.__gmpz_get_str.restype = c_void_p
    _gmp.__gmpz_get_str.argtypes = [c_void_p, c_int, POINTER(mpz_t)]
    _gmp.__gmpz_sizeinbase.restype = ctypes.c_size_t
    _gmp.__gmpz_sizeinbase.argtypes = [POINTER(mpz_t), c_int]
    _gmp.__gmpz_import.argtypes = [POINTER(mpz_t), ctypes.c_size_t, c_int, ctypes.c_size_t, c_int, ctypes.c_size_t, c_char_p]
    _gmp.__gmpz_export.restype = c_void_p
    _gmp.__gmpz_export.argtypes = [c_char_p, POINTER(ctypes.c_size_t), c_int, ctypes.c_size_t, c_int, ctypes.c_size_t, POINTER(mpz_t)]

EXP_LIMIT = 1 << 61


class Out(Exception):
    """value outside what the binding handles (exponent range)"""


class F:
    """owned mpfr_t"""
    __slots__ = ("v",)

    def __init__(self, prec):
        self.v = mpfr_t()
        _mpfr.mpfr_init2(byref(self.v), max(1, int(prec)))      # MPFR_PREC_MIN is 1 since MPFR 4.0

    def __del__(self):
        try:
            _mpfr.mpfr_clear(byref(self.v))
        except Exception:
            pass

    @property
    def p(self):
        return byref(self.v)


def _set_z(z, n):
    n = abs(n)
    b = n.to_bytes((n.bit_length() + 7) // 8 or 1, "little")
    _gmp.__gmpz_import(byref(z), len(b), -1, 1, 0, 0, b)


def _get_z(z):
    nbytes = (_gmp.__gmpz_sizeinbase(byref(z), 2) + 7) // 8
    buf = ctypes.create_string_buffer(nbytes + 8)
    cnt = ctypes.c_size_t(0)
    _gmp.__gmpz_export(buf, byref(cnt), -1, 1, 0, 0, byref(z))
    return int.from_bytes(buf.raw[:cnt.value], "little")


def from_raw(t, prec=None):
    """exact conversion of a raw mpf to an F (precision = its own bit count unless prec given)"""
    sign, man, exp, bc = t
    if man == 0:
        f = F(prec or 2)
        if t == fzero:
            _mpfr.mpfr_set_zero(f.p, 1)
        elif t == finf:
            _mpfr.mpfr_set_inf(f.p, 1)
        elif t == fninf:
            _mpfr.mpfr_set_inf(f.p, -1)
        else:
            _mpfr.mpfr_set_nan(f.p)
        return f
    if abs(exp) > EXP_LIMIT:
        raise Out("exponent too large for MPFR")
    f = F(prec or max(2, bc))
    z = mpz_t()
    _gmp.__gmpz_init(byref(z))
    _set_z(z, int(man))
    if sign:
        _gmp.__gmpz_neg(byref(z), byref(z))
    _mpfr.mpfr_set_z_2exp(f.p, byref(z), exp, RNDN)
    _gmp.__gmpz_clear(byref(z))
    return f


def to_raw(f):
    v = f.v
    if _mpfr.mpfr_nan_p(f.p):
        return fnan
    if _mpfr.mpfr_inf_p(f.p):
        return finf if _mpfr.mpfr_sgn(f.p) > 0 else fninf
    if _mpfr.mpfr_zero_p(f.p):
        return fzero
    z = mpz_t()
    _gmp.__gmpz_init(byref(z))
    e = _mpfr.mpfr_get_z_2exp(byref(z), f.p)
    neg = z.size < 0
    m = _get_z(z)
    _gmp.__gmpz_clear(byref(z))
    return mk(1 if neg else 0, m, e)


# ------------------------------------------------------------------------------------------------
# generic call helpers

def fn1(name, x, prec, rnd="n"):
    """correctly rounded f(x) at prec bits; x raw (exact)"""
    a = from_raw(x)
    r = F(prec)
    getattr(_mpfr, "mpfr_" + name)(r.p, a.p, RND[rnd])
    return to_raw(r)


def fn2(name, x, y, prec, rnd="n"):
    a = from_raw(x)
    b = from_raw(y)
    r = F(prec)
    getattr(_mpfr, "mpfr_" + name)(r.p, a.p, b.p, RND[rnd])
    return to_raw(r)


def fn_si(name, x, n, prec, rnd="n"):
    """f(x, long n) e.g. pow_si, rootn_si ... n must fit a C long"""
    a = from_raw(x)
    r = F(prec)
    f = getattr(_mpfr, "mpfr_" + name)
    f.argtypes = [POINTER(mpfr_t), POINTER(mpfr_t), c_long, c_int]
    f(r.p, a.p, n, RND[rnd])
    return to_raw(r)


def fn_ui(name, x, n, prec, rnd="n"):
    a = from_raw(x)
    r = F(prec)
    f = getattr(_mpfr, "mpfr_" + name)
    f.argtypes = [POINTER(mpfr_t), POINTER(mpfr_t), c_ulong, c_int]
    f(r.p, a.p, n, RND[rnd])
    return to_raw(r)


def fn_n_x(name, n, x, prec, rnd="n"):
    """f(long n, x): jn, yn"""
    a = from_raw(x)
    r = F(prec)
    f = getattr(_mpfr, "mpfr_" + name)
    f.argtypes = [POINTER(mpfr_t), c_long, POINTER(mpfr_t), c_int]
    f(r.p, n, a.p, RND[rnd])
    return to_raw(r)


def pow_z(x, n, prec, rnd="n"):
    a = from_raw(x)
    r = F(prec)
    z = mpz_t()
    _gmp.__gmpz_init(byref(z))
    _set_z(z, n)
    if n < 0:
        _gmp.__gmpz_neg(byref(z), byref(z))
    _mpfr.mpfr_pow_z(r.p, a.p, byref(z), RND[rnd])
    _gmp.__gmpz_clear(byref(z))
    return to_raw(r)


def const(name, prec, rnd="n"):
    """name in pi, log2, euler, catalan"""
    r = F(prec)
    getattr(_mpfr, "mpfr_const_" + name)(r.p, RND[rnd])
    return to_raw(r)


def zeta_ui(n, prec, rnd="n"):
    r = F(prec)
    f = _mpfr.mpfr_zeta_ui
    f.argtypes = [POINTER(mpfr_t), c_ulong, c_int]
    f(r.p, n, RND[rnd])
    return to_raw(r)


def fac_ui(n, prec, rnd="n"):
    r = F(prec)
    f = _mpfr.mpfr_fac_ui
    f.argtypes = [POINTER(mpfr_t), c_ulong, c_int]
    f(r.p, n, RND[rnd])
    return to_raw(r)


def lgamma(x, prec, rnd="n"):
    """returns (raw log|gamma(x)|, sign)"""
    a = from_raw(x)
    r = F(prec)
    s = c_int(0)
    _mpfr.mpfr_lgamma(r.p, byref(s), a.p, RND[rnd])
    return to_raw(r), s.value


def sin_cos(x, prec, rnd="n"):
    a = from_raw(x)
    r1 = F(prec)
    r2 = F(prec)
    _mpfr.mpfr_sin_cos(r1.p, r2.p, a.p, RND[rnd])
    return to_raw(r1), to_raw(r2)


def strtofr(s, prec, rnd="n", base=10):
    """correctly rounded conversion of a decimal literal (MPFR syntax)"""
    r = F(prec)
    end = c_char_p()
    f = _mpfr.mpfr_strtofr
    f.argtypes = [POINTER(mpfr_t), c_char_p, POINTER(c_char_p), c_int, c_int]
    f(r.p, s.encode(), byref(end), base, RND[rnd])
    if end.value not in (b"", None):
        raise ValueError("strtofr did not consume %r" % s)
    return to_raw(r)


def get_str(x, ndigits, rnd="n"):
    """(digits string without sign, decimal exponent e) with value = 0.d1d2... * 10^e, correctly rounded"""
    a = from_raw(x)
    e = c_long(0)
    f = _mpfr.mpfr_get_str
    f.restype = c_void_p
    f.argtypes = [c_void_p, POINTER(c_long), c_int, ctypes.c_size_t, POINTER(mpfr_t), c_int]
    ptr = f(None, byref(e), 10, ndigits, a.p, RND[rnd])
    s = ctypes.string_at(ptr).decode()
    _mpfr.mpfr_free_str.argtypes = [c_void_p]
    _mpfr.mpfr_free_str(ptr)
    return s.lstrip("-"), e.value


def get_d(x):
    a = from_raw(x)
    f = _mpfr.mpfr_get_d
    f.restype = c_double
    f.argtypes = [POINTER(mpfr_t), c_int]
    return f(a.p, RNDN)


def arith(expr_fn, prec):
    """convenience: run a small MPFR program.  expr_fn(M) where M has helper methods; see class M."""
    return expr_fn(M(prec))


class M:
    """tiny MPFR 'calculator' at fixed precision, round to nearest; values are F objects"""

    def __init__(self, prec):
        self.prec = prec

    def raw(self, t):
        return from_raw(t)

    def int(self, n):
        return from_raw(mk(1 if n < 0 else 0, abs(n), 0)) if n else from_raw(fzero)

    def _op(self, name, *args, rnd=RNDN):
        r = F(self.prec)
        getattr(_mpfr, "mpfr_" + name)(r.p, *[a.p for a in args], rnd)
        return r

    def add(self, a, b): return self._op("add", a, b)
    def sub(self, a, b): return self._op("sub", a, b)
    def mul(self, a, b): return self._op("mul", a, b)
    def div(self, a, b): return self._op("div", a, b)
    def f(self, name, *a): return self._op(name, *a)

    def const(self, name):
        r = F(self.prec)
        getattr(_mpfr, "mpfr_const_" + name)(r.p, RNDN)
        return r

    def out(self, a):
        return to_raw(a)


# ------------------------------------------------------------------------------------------------
# MPC

MPC_RNDNN = 0


def _mpc_rnd(rr, ri):
    return RND[rr] + (RND[ri] << 4)


class C:
    __slots__ = ("v",)

    def __init__(self, prec):
        self.v = mpc_t()
        _mpc.mpc_init2(byref(self.v), c_long(max(2, int(prec))))

    def __del__(self):
        try:
            _mpc.mpc_clear(byref(self.v))
        except Exception:
            pass

    @property
    def p(self):
        return byref(self.v)


def c_from_raw(z):
    re, im = z
    pr = max(2, re[3], im[3])
    c = C(pr)
    a = from_raw(re)
    b = from_raw(im)
    _mpc.mpc_set_fr_fr(c.p, a.p, b.p, 0)
    return c


def c_to_raw(c):
    re = F(2)
    im = F(2)
    # read the parts directly from the struct
    class _V:
        pass
    r = _V(); r.v = c.v.re; r.p = byref(c.v.re)
    i = _V(); i.v = c.v.im; i.p = byref(c.v.im)
    return to_raw(r), to_raw(i)


def cfn1(name, z, prec, rr="n", ri="n"):
    a = c_from_raw(z)
    r = C(prec)
    getattr(_mpc, "mpc_" + name)(r.p, a.p, _mpc_rnd(rr, ri))
    return c_to_raw(r)


def cfn2(name, z, w, prec, rr="n", ri="n"):
    a = c_from_raw(z)
    b = c_from_raw(w)
    r = C(prec)
    getattr(_mpc, "mpc_" + name)(r.p, a.p, b.p, _mpc_rnd(rr, ri))
    return c_to_raw(r)


def c_real_fn(name, z, prec, rnd="n"):
    """mpc_abs, mpc_arg, mpc_norm: complex -> real"""
    a = c_from_raw(z)
    r = F(prec)
    getattr(_mpc, "mpc_" + name)(r.p, a.p, RND[rnd])
    return to_raw(r)


def c_pow_si(z, n, prec):
    a = c_from_raw(z)
    r = C(prec)
    f = _mpc.mpc_pow_si
    f.argtypes = [POINTER(mpc_t), POINTER(mpc_t), c_long, c_int]
    f(r.p, a.p, n, 0)
    return c_to_raw(r)


# ------------------------------------------------------------------------------------------------
# signed zeros (branch cuts) and small MPC/MPFR "calculators" for composed references

def c_from_raw_signed(z, neg_re_zero=False, neg_im_zero=False, prec=None):
    """complex from raws; a zero part can be given a negative sign to select the side of a branch cut"""
    re, im = z
    pr = prec or max(2, re[3], im[3])
    c = C(pr)
    a = from_raw(re)
    b = from_raw(im)
    if neg_re_zero and re == fzero:
        _mpfr.mpfr_set_zero(a.p, -1)
    if neg_im_zero and im == fzero:
        _mpfr.mpfr_set_zero(b.p, -1)
    _mpc.mpc_set_fr_fr(c.p, a.p, b.p, 0)
    return c


class MC:
    """MPC calculator at fixed precision (round to nearest); values are C objects"""

    def __init__(self, prec):
        self.prec = prec

    def z(self, raw_pair, neg_re_zero=False, neg_im_zero=False):
        return c_from_raw_signed(raw_pair, neg_re_zero, neg_im_zero)

    def real(self, f):
        """complex from an F (imaginary part +0)"""
        c = C(self.prec)
        _mpc.mpc_set_fr(c.p, f.p, 0)
        return c

    def f(self, name, *args):
        r = C(self.prec)
        getattr(_mpc, "mpc_" + name)(r.p, *[a.p for a in args], 0)
        return r

    def f_fr(self, name, a, x):
        """mpc_<name>(rop, complex a, real x)  e.g. mul_fr, div_fr, pow_fr"""
        r = C(self.prec)
        getattr(_mpc, "mpc_" + name)(r.p, a.p, x.p, 0)
        return r

    def ui_div(self, n, a):
        r = C(self.prec)
        f = _mpc.mpc_ui_div
        f.argtypes = [POINTER(mpc_t), c_ulong, POINTER(mpc_t), c_int]
        f(r.p, n, a.p, 0)
        return r

    def mul_i(self, a, sgn=1):
        r = C(self.prec)
        f = _mpc.mpc_mul_i
        f.argtypes = [POINTER(mpc_t), POINTER(mpc_t), c_int, c_int]
        f(r.p, a.p, sgn, 0)
        return r

    def out(self, c):
        return c_to_raw(c)


def c_isnan(pair):
    return pair[0] == fnan or pair[1] == fnan


class Hang(Exception):
    """the reference library did not answer in time (MPC 1.3.1 loops forever on some inputs, e.g.
    mpc_acos(-1.25+0.75i) at 177 bits); the case is inconclusive"""


def guarded(fn, timeout=8.0):
    """run fn() in a forked child and return its (picklable) result; raise Hang if it does not finish.
    C library calls cannot be interrupted by Python signal handlers, hence the child process."""
    import os, pickle, select, signal
    r, w = os.pipe()
    pid = os.fork()
    if pid == 0:
        code = 0
        try:
            os.close(r)
            try:
                payload = pickle.dumps(("ok", fn()))
            except BaseException as e:  # noqa
                payload = pickle.dumps(("err", repr(e)))
            with os.fdopen(w, "wb") as f:
                f.write(payload)
        except BaseException:
            code = 1
        os._exit(code)
    os.close(w)
    data = b""
    try:
        import time as _t
        deadline = _t.time() + timeout
        while True:
            left = deadline - _t.time()
            if left <= 0:
                raise Hang()
            ready, _, _ = select.select([r], [], [], left)
            if not ready:
                raise Hang()
            chunk = os.read(r, 1 << 16)
            if not chunk:
                break
            data += chunk
    except Hang:
        try:
            os.kill(pid, signal.SIGKILL)
        except OSError:
            pass
        raise
    finally:
        os.close(r)
        try:
            os.waitpid(pid, 0)
        except OSError:
            pass
    kind, val = pickle.loads(data)
    if kind == "err":
        raise RuntimeError("reference computation failed: " + val)
    return val


class Server:
    """A persistent forked helper process that evaluates reference functions (fork costs ~60 ms in this sandbox,
    so one child serves many requests).  A request that does not answer within `timeout` kills the helper (the C
    library call cannot be interrupted otherwise), a new one is forked lazily, and Hang is raised."""

    def __init__(self):
        self.pid = None
        self.rfd = self.wfd = None

    def _start(self):
        import os
        c2p_r, c2p_w = os.pipe()
        p2c_r, p2c_w = os.pipe()
        pid = os.fork()
        if pid == 0:
            try:
                os.close(c2p_r)
                os.close(p2c_w)
                try:
                    import ctypes, signal
                    ctypes.CDLL("libc.so.6").prctl(1, signal.SIGKILL)
                except Exception:
                    pass
                self._serve(p2c_r, c2p_w)
            finally:
                os._exit(0)
        os.close(c2p_w)
        os.close(p2c_r)
        self.pid, self.rfd, self.wfd = pid, c2p_r, p2c_w

    @staticmethod
    def _readn(fd, n):
        import os
        buf = b""
        while len(buf) < n:
            chunk = os.read(fd, n - len(buf))
            if not chunk:
                raise EOFError
            buf += chunk
        return buf

    def _serve(self, rfd, wfd):
        import os, pickle, struct, importlib
        while True:
            try:
                n = struct.unpack("<I", self._readn(rfd, 4))[0]
                modname, fname, args = pickle.loads(self._readn(rfd, n))
            except EOFError:
                return
            try:
                f = getattr(importlib.import_module(modname), fname)
                out = ("ok", f(*args))
            except BaseException as e:  # noqa
                out = ("err", type(e).__name__, repr(e))
            data = pickle.dumps(out)
            os.write(wfd, struct.pack("<I", len(data)) + data)

    def stop(self):
        import os, signal
        if self.pid is not None:
            try:
                os.kill(self.pid, signal.SIGKILL)
                os.waitpid(self.pid, 0)
            except OSError:
                pass
            for fd in (self.rfd, self.wfd):
                try:
                    os.close(fd)
                except OSError:
                    pass
            self.pid = None

    def call(self, modname, fname, args, timeout=10.0):
        """returns f(*args) computed in the helper; raises Hang on timeout, RemoteError(name, text) if f raised"""
        import os, pickle, struct, select, time as _t
        if self.pid is None:
            self._start()
        data = pickle.dumps((modname, fname, args))
        try:
            os.write(self.wfd, struct.pack("<I", len(data)) + data)
        except OSError:
            self.stop()
            raise Hang()
        deadline = _t.time() + timeout
        buf = b""
        need = 4
        header = True
        while True:
            left = deadline - _t.time()
            if left <= 0 or not select.select([self.rfd], [], [], left)[0]:
                self.stop()
                raise Hang()
            chunk = os.read(self.rfd, need - len(buf))
            if not chunk:
                self.stop()
                raise Hang()
            buf += chunk
            if len(buf) == need:
                if header:
                    need = struct.unpack("<I", buf)[0]
                    buf = b""
                    header = False
                else:
                    break
        out = pickle.loads(buf)
        if out[0] == "err":
            raise RemoteError(out[1], out[2])
        return out[1]


class RemoteError(Exception):
    def __init__(self, name, text):
        Exception.__init__(self, "%s: %s" % (name, text))
        self.name = name


SERVER = Server()
