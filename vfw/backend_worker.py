"""Worker of the backend differential (C37): executes libmp operations read as JSON lines from stdin in a process whose
integer backend is decided by its environment (MPMATH_NOGMPY=1 -> python; vfw/shims on sys.path -> 'gmpy')."""
import json
import os
import signal
import sys


def dec(a, MPZ):
    ty, v = a
    if ty == "raw":
        return (v[0], MPZ(int(v[1], 16)), v[2], v[3])
    if ty == "mpc":
        return (dec(["raw", v[0]], MPZ), dec(["raw", v[1]], MPZ))
    if ty == "int":
        return int(v)
    if ty == "mpz":
        return MPZ(int(v))
    if ty == "float":
        return float(v)
    if ty == "list":
        return [dec(x, MPZ) for x in v]
    return v


def enc(r):
    if isinstance(r, tuple) and len(r) == 4 and isinstance(r[3], int) and not isinstance(r[0], tuple) and isinstance(r[0], int) \
            and r[0] in (0, 1):
        canonical = True
        sign, man, exp, bc = r
        m = int(man)
        if m:
            canonical = (m & 1 == 1) and bc == m.bit_length() and m > 0
        return ["raw", [int(sign), hex(m), int(exp), int(bc)], canonical, type(man).__name__]
    if isinstance(r, tuple):
        return ["tuple", [enc(x) for x in r]]
    if isinstance(r, list):
        return ["list", [enc(x) for x in r]]
    if isinstance(r, bool) or r is None:
        return ["py", r]
    if isinstance(r, float):
        return ["float", repr(r)]
    if isinstance(r, int):
        return ["int", str(int(r))]
    if isinstance(r, str):
        return ["str", r]
    return ["repr", repr(r)]


def main():
    try:
        import ctypes
        ctypes.CDLL("libc.so.6").prctl(1, signal.SIGKILL)
    except Exception:
        pass
    try:
        sys.set_int_max_str_digits(0)
    except AttributeError:
        pass
    import mpmath
    from mpmath import libmp
    MPZ = libmp.MPZ
    print(json.dumps({"backend": libmp.BACKEND, "file": mpmath.__file__}), flush=True)
    for line in sys.stdin:
        line = line.strip()
        if not line:
            continue
        req = json.loads(line)
        out = []
        for op in req["ops"]:
            try:
                signal.alarm(20)
                if op["f"].startswith("mp."):
                    mpmath.mp.prec = op["prec"]
                    args = [mpmath.mp.make_mpf(a) if (isinstance(a, tuple) and len(a) == 4) else
                            mpmath.mp.make_mpc(a) if isinstance(a, tuple) else a for a in [dec(x, MPZ) for x in op["args"]]]
                    r = getattr(mpmath.mp, op["f"][3:])(*args)
                    r = r._mpf_ if hasattr(r, "_mpf_") else r._mpc_ if hasattr(r, "_mpc_") else r
                else:
                    r = getattr(libmp, op["f"])(*[dec(a, MPZ) for a in op["args"]])
                signal.alarm(0)
                out.append({"ok": enc(r)})
            except BaseException as e:  # noqa
                signal.alarm(0)
                if isinstance(e, (KeyboardInterrupt, SystemExit)):
                    raise
                out.append({"exc": type(e).__name__})
            finally:
                mpmath.mp.prec = 53
        print(json.dumps(out), flush=True)


def _alarm(sig, frm):
    raise TimeoutError("op timeout")


if __name__ == "__main__":
    signal.signal(signal.SIGALRM, _alarm)
    main()
