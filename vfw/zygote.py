"""Fresh-process oracle (O6).

`python -m vfw.zygote` starts an interpreter that imports the repository's mpmath and computes nothing.  For every
request read from stdin (one JSON line) it forks a child; the child evaluates exactly that one call -- so it has the
caches of a freshly started process -- and writes the JSON result to stdout.  The parent of this module (the check)
talks to it through `Fresh`."""
import json
import os
import subprocess
import sys


def _jsonable(r):
    """raw tuples / nested lists of a result"""
    if hasattr(r, "_mpf_"):
        t = r._mpf_
        return ["mpf", [int(t[0]), hex(int(t[1])), int(t[2]), int(t[3])]]
    if hasattr(r, "_mpc_"):
        a, b = r._mpc_
        return ["mpc", [[int(a[0]), hex(int(a[1])), int(a[2]), int(a[3])], [int(b[0]), hex(int(b[1])), int(b[2]), int(b[3])]]]
    if hasattr(r, "_mpi_"):
        a, b = r._mpi_
        return ["mpi", [[int(a[0]), hex(int(a[1])), int(a[2]), int(a[3])], [int(b[0]), hex(int(b[1])), int(b[2]), int(b[3])]]]
    if hasattr(r, "rows") and hasattr(r, "cols"):
        return ["matrix", r.rows, r.cols, [_jsonable(r[i, j]) for i in range(r.rows) for j in range(r.cols)]]
    if isinstance(r, (list, tuple)):
        return ["list", [_jsonable(x) for x in r]]
    if isinstance(r, (int, float, str, bool)) or r is None:
        return ["py", r if not isinstance(r, float) else repr(r)]
    return ["py", repr(r)]


def evaluate(req):
    """req: {"ctx": "mp"|"iv"|"fp", "prec": int, "prog": name, "args": [...]}  -> jsonable result"""
    import mpmath
    from vfw.props import C33 as progs
    ctx = {"mp": mpmath.mp, "iv": mpmath.iv, "fp": mpmath.fp}[req.get("ctx", "mp")]
    if req.get("ctx", "mp") != "fp":
        ctx.prec = req["prec"]
    try:
        r = progs.run_program(mpmath, ctx, req["prog"], req["args"])
        return {"ok": _jsonable(r)}
    except Exception as e:  # noqa
        return {"exc": type(e).__name__}


def main():
    sys.path.insert(0, os.environ.get("VERIF_REPO", "/repo"))
    import mpmath  # noqa: imported, nothing computed
    from vfw.props import C33  # noqa: the program table (imports only; no mpmath computation happens at import)
    try:
        import ctypes, signal
        ctypes.CDLL("libc.so.6").prctl(1, signal.SIGKILL)      # die with the check that started us
    except Exception:
        pass
    out = sys.stdout
    for line in sys.stdin:
        line = line.strip()
        if not line:
            continue
        req = json.loads(line)
        r, w = os.pipe()
        pid = os.fork()
        if pid == 0:
            try:
                os.close(r)
                res = evaluate(req)
                with os.fdopen(w, "w") as f:
                    f.write(json.dumps(res))
            finally:
                os._exit(0)
        os.close(w)
        with os.fdopen(r) as f:
            data = f.read()
        os.waitpid(pid, 0)
        out.write((data or json.dumps({"exc": "ChildDied"})) + "\n")
        out.flush()


class Fresh:
    """client side"""

    def __init__(self):
        self.p = None

    def start(self):
        env = dict(os.environ)
        self.p = subprocess.Popen([sys.executable, "-m", "vfw.zygote"], stdin=subprocess.PIPE, stdout=subprocess.PIPE,
                                  env=env, text=True, bufsize=1)

    def call(self, req):
        if self.p is None or self.p.poll() is not None:
            self.start()
        self.p.stdin.write(json.dumps(req) + "\n")
        self.p.stdin.flush()
        line = self.p.stdout.readline()
        if not line:
            raise RuntimeError("zygote died")
        return json.loads(line)

    def stop(self):
        if self.p is not None:
            try:
                self.p.stdin.close()
                self.p.wait(timeout=5)
            except Exception:
                self.p.kill()
            self.p = None


if __name__ == "__main__":
    main()
