"""CLI:  python -m vfw.run setup | check <ID> [--tier quick|thorough] | replay <ID> <file>

exit codes: 0 property held on everything explored; 1 violation (VIOLATION line printed);
2 harness error (never a violation)."""
import importlib
import json
import multiprocessing as mp
import os
import subprocess
import sys
import time
import traceback

from . import core, findings
from .core import HOME, REPO

NPROC = int(os.environ.get("VERIF_NPROC", "16"))


def log(*a):
    print(*a, flush=True)


def setup():
    deps = os.path.join(HOME, ".deps")
    os.makedirs(deps, exist_ok=True)
    ref = os.path.join(deps, "mpref_pkg", "mpref")
    if not os.path.exists(os.path.join(ref, "__init__.py")):
        import zipfile, shutil, glob
        whl = glob.glob("/opt/veriftools/wheels/mpmath-1.3.0-*.whl")
        if not whl:
            log("setup: mpmath 1.3.0 wheel not found; O3 oracle unavailable")
        else:
            tmp = os.path.join(deps, "mpref_pkg.tmp%d" % os.getpid())
            shutil.rmtree(tmp, ignore_errors=True)
            os.makedirs(tmp)
            with zipfile.ZipFile(whl[0]) as z:
                z.extractall(tmp)
            shutil.rmtree(os.path.join(tmp, "mpmath", "tests"), ignore_errors=True)
            os.rename(os.path.join(tmp, "mpmath"), os.path.join(tmp, "mpref"))
            for dname in glob.glob(os.path.join(tmp, "*.dist-info")):
                shutil.rmtree(dname, ignore_errors=True)
            shutil.rmtree(os.path.join(deps, "mpref_pkg"), ignore_errors=True)
            os.rename(tmp, os.path.join(deps, "mpref_pkg"))
    # hypothesis into /venv if missing, atheris into .deps/site (best effort)
    try:
        import hypothesis  # noqa
    except ImportError:
        subprocess.call(["/venv/bin/pip", "install", "-q", "--no-index", "--find-links",
                         "/opt/veriftools/wheels", "hypothesis"])
    site = os.path.join(deps, "site")
    if not os.path.exists(os.path.join(site, "atheris")):
        subprocess.call(["/venv/bin/pip", "install", "-q", "--no-index", "--find-links",
                         "/opt/veriftools/wheels", "--target", site, "atheris"],
                        stdout=subprocess.DEVNULL, stderr=subprocess.DEVNULL)
    import ctypes
    for lib in ("libmpfr.so.6", "libmpc.so.3", "libgmp.so.10"):
        try:
            ctypes.CDLL(lib)
        except OSError:
            log("setup: %s not loadable; MPFR oracle degraded" % lib)
    log("setup ok")
    return 0


def ensure_setup():
    if not os.path.exists(os.path.join(HOME, ".deps", "mpref_pkg", "mpref", "__init__.py")):
        setup()
        # the interpreter was started with PYTHONPATH containing the path already


def load_module(pid):
    return importlib.import_module("vfw.props.%s" % pid)


def trim(obj, limit=600):
    """shorten long strings inside a sample so the evidence stays readable"""
    if isinstance(obj, str):
        if len(obj) > limit:
            return obj[:limit // 2] + "...<%d chars>..." % len(obj) + obj[-limit // 4:]
        return obj
    if isinstance(obj, dict):
        return {k: trim(v, limit) for k, v in obj.items()}
    if isinstance(obj, (list, tuple)):
        if len(obj) > 60:
            return [trim(v, limit) for v in obj[:40]] + ["...<%d items>..." % len(obj)]
        return [trim(v, limit) for v in obj]
    return obj


def write_replay(pid, case, bucket, msg):
    import hashlib
    d = os.path.join(HOME, "out", "replay", pid)
    os.makedirs(d, exist_ok=True)
    payload = {"property": pid, "bucket": bucket, "message": msg, "case": case}
    s = json.dumps(payload, sort_keys=True, default=str, indent=1)
    name = hashlib.sha1(s.encode()).hexdigest()[:12] + ".json"
    path = os.path.join(d, name)
    with open(path, "w") as f:
        f.write(s)
    return os.path.relpath(path, HOME)


def replay_file(module, path):
    with open(path) as f:
        payload = json.load(f)
    case = payload["case"] if "case" in payload else payload
    res = core.run_check(module, case)
    return case, res


def run_shrink(args, timeout):
    """shrink pass for one bucket in a fresh process; None if it does not finish in time (the unshrunk case is kept)"""
    ctx = mp.get_context("spawn")
    r, w = ctx.Pipe(duplex=False)
    p = ctx.Process(target=core.shrink_entry, args=(args, w))
    p.start()
    w.close()
    out = None
    try:
        if r.poll(timeout):
            out = r.recv()
    except (EOFError, OSError):
        out = None
    if p.is_alive():
        p.kill()
    p.join(10)
    r.close()
    return out


def run_jobs(jobs, nproc, cap):
    """one fresh spawned process per shard, at most nproc at a time; a worker that dies without reporting (killed from
    outside, out of memory) is re-run once, then reported as a harness error -- never waited for"""
    from multiprocessing import connection
    ctx = mp.get_context("spawn")
    pending = list(enumerate(jobs))
    running = {}
    results = [None] * len(jobs)
    attempts = [0] * len(jobs)
    deadline = time.time() + cap
    while pending or running:
        while pending and len(running) < nproc:
            i, job = pending.pop(0)
            r, w = ctx.Pipe(duplex=False)
            p = ctx.Process(target=core.shard_entry, args=(job, w))
            p.start()
            w.close()
            running[i] = (p, r, job)
        ready = connection.wait([r for (_, r, _) in running.values()], timeout=1.0)
        for i, (p, r, job) in list(running.items()):
            if r not in ready:
                continue
            try:
                out = r.recv()
            except (EOFError, OSError):
                out = None
            p.join(10)
            r.close()
            del running[i]
            if out is None:
                attempts[i] += 1
                if attempts[i] < 2:
                    log("note: worker of shard %s died (exit code %s); re-running it" % (job[1], p.exitcode))
                    pending.append((i, job))
                else:
                    out = {"shard": job[1], "seed": job[2], "error": "worker died twice (exit code %s)" % p.exitcode}
            results[i] = out
        if time.time() > deadline:
            for (p, r, job) in running.values():
                p.kill()
            return None
    return results


def check(pid, tier):
    t0 = time.time()
    seed = int(os.environ.get("VERIF_SEED", "0") or 0)
    ensure_setup()
    module = load_module(pid)
    known_entries = findings.load(pid)
    match_known = findings.matcher(module)
    new_violations = []     # (bucket, case, msg)
    known_hits = {}
    replayed = 0

    # ---- replay tier: committed regression cases + witnesses of findings ----------------
    rdir = os.path.join(HOME, "replay", pid)
    if os.path.isdir(rdir):
        for fn in sorted(os.listdir(rdir)):
            if not fn.endswith(".json"):
                continue
            case, res = replay_file(module, os.path.join(rdir, fn))
            replayed += 1
            for bucket, msg in res.violations:
                kid = match_known(case, bucket)
                if kid:
                    known_hits[kid] = known_hits.get(kid, 0) + 1
                else:
                    new_violations.append((bucket, case, msg, os.path.join("replay", pid, fn)))
    for e in known_entries:
        w = e.get("witness")
        if w is None or e.get("property") != pid:
            continue
        res = core.run_check(module, w)
        replayed += 1
        if e.get("status") == "known":
            if res.violations:
                log("KNOWN-FINDING: property=%s %s [%s]" % (pid, e.get("what", ""), e["id"]))
                known_hits[e["id"]] = known_hits.get(e["id"], 0) + 1
            else:
                log("note: known finding %s no longer reproduces on this tree" % e["id"])
        else:  # fixed: suppresses nothing
            for bucket, msg in res.violations:
                new_violations.append((bucket, w, "regression of fixed finding %s: %s" % (e["id"], msg), None))

    # ---- generated campaign ----------------------------------------------------------------
    shards = module.shards(tier)
    jobs = []
    for i, (shard, n) in enumerate(shards):
        jobs.append(("vfw.props.%s" % pid, shard, seed * 1009 + i, n, tier))
    merged = {"evaluations": 0, "nt": set(), "hist": {}, "samples": {}, "viol": {}, "nviol": 0,
              "inconclusive": 0, "rejected": 0, "metrics": {}}
    shard_info = []
    harness_errors = []
    cap = getattr(module, "WALL_CAP", {}).get(tier, 1500 if tier == "quick" else 7200)
    results = run_jobs(jobs, min(NPROC, max(1, len(jobs))), cap)
    if results is None:
        log("HARNESS: wall-clock safety cap of %ds reached (inconclusive, not a violation)" % cap)
        return 2
    for out in results:
        if "error" in out:
            harness_errors.append((out["shard"], out["error"]))
            continue
        shard_info.append({"shard": out["shard"], "seed": out["seed"], "evaluations": out["evaluations"],
                           "wall_s": round(out["wall"], 2)})
        merged["evaluations"] += out["evaluations"]
        merged["nt"] |= out["nt"]
        merged["nviol"] += out["nviol"]
        merged["inconclusive"] += out["inconclusive"]
        merged["rejected"] += out["rejected"]
        for k, v in out["hist"].items():
            merged["hist"][k] = merged["hist"].get(k, 0) + v
        for k, v in out["samples"].items():
            merged["samples"].setdefault(k, v)
        for k, v in out["metrics"].items():
            if k not in merged["metrics"] or v > merged["metrics"][k]:
                merged["metrics"][k] = v
        for bucket, lst in out["viol"].items():
            for sz, case, msg in lst:
                kid = match_known(case, bucket)
                if kid:
                    known_hits[kid] = known_hits.get(kid, 0) + 1
                else:
                    merged["viol"].setdefault(bucket, []).append((sz, case, msg, out["shard"], out["seed"]))
        # extra per-shard payload (e.g. exhaustive flags)
        for k in ("exhaustive_blocks",):
            if k in out:
                merged.setdefault(k, []).extend(out[k])

    if harness_errors:
        for sh, err in harness_errors[:3]:
            log("HARNESS ERROR in shard %s:\n%s" % (sh, err))
        return 2

    # ---- shrink new buckets and write replay files ------------------------------------------------
    shard_n = {s: n for s, n in shards}
    buckets = sorted(merged["viol"].items(), key=lambda kv: kv[0])
    do_shrink = os.environ.get("VERIF_NOSHRINK", "") == "" and not getattr(module, "NO_SHRINK", False)
    for bi, (bucket, lst) in enumerate(buckets):
        lst.sort(key=lambda x: x[0])
        sz, case, msg, shard, sseed = lst[0]
        if do_shrink and bi < 4:
            got = run_shrink(("vfw.props.%s" % pid, shard, sseed, shard_n.get(shard, 1000), tier, bucket, None), 240)
            if got is not None and core.case_size(got[0]) <= sz:
                case, msg = got
        new_violations.append((bucket, case, msg, None))

    exit_code = 0
    seen = set()
    for bucket, case, msg, path in new_violations:
        if path is None:
            path = write_replay(pid, case, bucket, msg)
        if (bucket, path) in seen:
            continue
        seen.add((bucket, path))
        log("VIOLATION property=%s replay=%s" % (pid, path))
        log("   bucket=%s :: %s" % (bucket, msg[:400]))
        exit_code = 1
    for kid, cnt in sorted(known_hits.items()):
        log("note: %d generated/replayed cases fell in known finding %s" % (cnt, kid))

    # ---- evidence -----------------------------------------------------------------------------------
    samples = []
    for k in sorted(merged["samples"]):
        samples.append({"class": k, "case": trim(merged["samples"][k])})
        if len(samples) >= 12:
            break
    if not samples:
        samples = [{"note": "no non-trivial case generated"}]
    hist = dict(sorted(merged["hist"].items(), key=lambda kv: -kv[1])[:80])
    cov = {
        "evaluations": merged["evaluations"],
        "distinct_nontrivial": len(merged["nt"]),
        "rule": module.RULE,
        "samples": samples,
        "class_histogram": hist,
        "inconclusive": merged["inconclusive"],
        "rejected_by_documented_exception": merged["rejected"],
        "replayed_cases": replayed,
        "known_finding_hits": known_hits,
        "violating_cases_total": merged["nviol"],
        "metrics_max": {k: (v if isinstance(v, (int, str)) else float(v)) for k, v in sorted(merged["metrics"].items())},
        "shards": shard_info,
        "engine": getattr(module, "ENGINE", "hypothesis %s" % _hyp_version()),
    }
    if merged.get("exhaustive_blocks"):
        cov["exhaustive_blocks"] = merged["exhaustive_blocks"]
        cov["exhaustive"] = False
    ev = {
        "property_id": pid,
        "tier": tier,
        "seed": seed,
        "level": getattr(module, "LEVEL", "exploration"),
        "coverage": cov,
        "assumptions": getattr(module, "ASSUMPTIONS", []),
        "wall_s": round(time.time() - t0, 2),
        "violations": len(seen),
    }
    evdir = os.environ.get("VERIF_EVIDENCE_DIR") or os.path.join(HOME, "evidence")
    os.makedirs(evdir, exist_ok=True)
    with open(os.path.join(evdir, "%s.json" % pid), "w") as f:
        json.dump(ev, f, indent=1, sort_keys=True, default=str)
        f.write("\n")
    log("%s %s: %d evaluations, %d distinct non-trivial, %d inconclusive, %d new violation(s), %.1fs" % (
        pid, tier, cov["evaluations"], cov["distinct_nontrivial"], cov["inconclusive"], len(seen),
        time.time() - t0))
    return exit_code


def _hyp_version():
    try:
        import hypothesis
        return hypothesis.__version__
    except Exception:
        return "?"


def replay(pid, path):
    ensure_setup()
    module = load_module(pid)
    case, res = replay_file(module, path)
    if res.violations:
        for bucket, msg in res.violations:
            log("VIOLATION property=%s replay=%s" % (pid, path))
            log("   bucket=%s :: %s" % (bucket, msg))
        return 1
    log("replay %s: property holds on this case" % path)
    return 0


def main(argv):
    if not argv:
        log(__doc__)
        return 2
    cmd = argv[0]
    try:
        if cmd == "setup":
            return setup()
        if cmd == "check":
            pid = argv[1]
            tier = os.environ.get("VERIF_TIER") or "quick"
            if "--tier" in argv:
                tier = argv[argv.index("--tier") + 1]
            if tier not in ("quick", "thorough"):
                tier = "quick"
            return check(pid, tier)
        if cmd == "replay":
            return replay(argv[1], argv[2])
    except core.HarnessError as e:
        log("HARNESS ERROR: %s" % e)
        return 2
    except Exception:
        log("HARNESS ERROR:\n" + traceback.format_exc())
        return 2
    log("unknown command")
    return 2


if __name__ == "__main__":
    sys.exit(main(sys.argv[1:]))
