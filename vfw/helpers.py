"""helpers shared by property modules"""
from fractions import Fraction
from . import exact, gen
from .exact import fzero, finf, fninf, fnan, raw_json as J, raw_unjson as U


def float_raw(f):
    if f != f:
        return fnan
    if f == float("inf"):
        return finf
    if f == float("-inf"):
        return fninf
    if f == 0:
        return fzero
    fr = Fraction(f)
    n, dd = fr.numerator, fr.denominator
    return exact.mk(1 if n < 0 else 0, abs(n), -(dd.bit_length() - 1))


def typed_operand(d, p, allow=("mpf", "int", "float"), maxbits=1500, huge=False):
    ty = d.choice(allow)
    if ty == "mpf":
        return ["mpf", J(gen.mpf_any(d, p, maxbits=maxbits, huge=huge))]
    if ty == "int":
        k = d.weighted([(3, "small"), (3, "big"), (1, "zero")])
        if k == "zero":
            n = 0
        elif k == "small":
            n = d.int(-1100, 1100)
        else:
            m, _ = gen.mantissa(d, p, maxbits=600)
            n = m << d.int(0, 40)
            if d.bool():
                n = -n
        return ["int", str(n)]
    return ["float", gen.pyfloat(d).hex()]


def realize(mp, spec):
    """(python object, exact raw value) of a typed operand spec"""
    ty, v = spec
    if ty == "mpf":
        return mp.make_mpf(U(v)), U(v)
    if ty == "int":
        n = int(v)
        return n, exact.from_int(n)
    if ty == "float":
        f = float.fromhex(v)
        return f, float_raw(f)
    raise ValueError(ty)


def mpc_json(z):
    return [J(z[0]), J(z[1])]


def mpc_unjson(j):
    return (U(j[0]), U(j[1]))


def raws_of(x):
    """all raw real tuples reachable from a result object"""
    out = []
    if hasattr(x, "_mpf_"):
        out.append(x._mpf_)
    elif hasattr(x, "_mpc_"):
        out.extend(x._mpc_)
    elif hasattr(x, "_mpi_"):
        out.extend(x._mpi_)
    elif hasattr(x, "_mpci_"):
        for iv in x._mpci_:
            out.extend(iv)
    elif isinstance(x, (tuple, list)):
        for y in x:
            out.extend(raws_of(y))
    elif hasattr(x, "rows") and hasattr(x, "cols"):
        for i in range(x.rows):
            for j in range(x.cols):
                out.extend(raws_of(x[i, j]))
    return out


def dps_to_prec(n):
    return max(1, int(round((int(n) + 1) * 3.3219280948873626)))


def prec_to_dps(n):
    return max(1, int(round(int(n) / 3.3219280948873626) - 1))
