"""Generators.  Every random choice goes through Hypothesis (``st.data()``), wrapped in the
small procedural interface ``D`` so that structured constructions stay readable, shrink as a
whole and replay from the recorded JSON case."""
from hypothesis import strategies as st
from . import exact
from .exact import fzero, finf, fninf, fnan, mk

_int_cache = {}


def _ints(lo, hi):
    k = (lo, hi)
    s = _int_cache.get(k)
    if s is None:
        s = st.integers(lo, hi)
        if len(_int_cache) < 5000:
            _int_cache[k] = s
    return s


class D:
    """procedural draw interface over hypothesis' data object"""

    def __init__(self, data):
        self._draw = data.draw
        self.labels = []

    def int(self, lo, hi):
        return self._draw(_ints(lo, hi))

    def bits(self, n):
        if n <= 0:
            return 0
        return self._draw(_ints(0, (1 << n) - 1))

    def bool(self):
        return self._draw(_ints(0, 1)) == 1

    def choice(self, seq):
        return seq[self._draw(_ints(0, len(seq) - 1))]

    def weighted(self, pairs):
        """pairs: sequence of (weight:int, value)"""
        tot = sum(w for w, _ in pairs)
        k = self._draw(_ints(0, tot - 1))
        for w, v in pairs:
            if k < w:
                return v
            k -= w
        raise AssertionError

    def draw(self, strategy):
        return self._draw(strategy)

    def label(self, s):
        self.labels.append(s)
        return s

    def float(self, **kw):
        return self._draw(st.floats(**kw))


# ----------------------------------------------------------------------------------------
# precisions / rounding

PREC_SMALL = [1, 2, 3, 4, 5, 6, 7, 8, 10, 11, 16, 24, 31, 32, 33, 52, 53, 54, 63, 64, 65, 100,
              113, 127, 128, 129]
PREC_THRESH = [199, 200, 201, 255, 256, 257, 399, 400, 401, 599, 600, 601, 1023, 1024, 1025]
PREC_BIG = [1499, 1500, 1501, 2499, 2500, 2501, 2999, 3000, 3001, 4096]


def prec(d, lo=1, hi=4096, big=False):
    k = d.weighted([(4, "small"), (2, "thresh"), (4, "rand_small"), (2, "rand"), (1 if big else 0, "big")])
    if k == "small":
        p = d.choice(PREC_SMALL)
    elif k == "thresh":
        p = d.choice(PREC_THRESH)
    elif k == "rand_small":
        p = d.int(1, 130)
    elif k == "big":
        p = d.choice(PREC_BIG)
    else:
        p = d.int(1, hi)
    return max(lo, min(hi, p))


def rnd(d):
    return d.choice("nfcdu")


# ----------------------------------------------------------------------------------------
# mantissas

def mantissa(d, p=53, maxbits=4096, cls=None):
    """positive integer (not necessarily odd) with a structure class; returns (man, label)"""
    if cls is None:
        cls = d.weighted([
            (3, "one"), (4, "small"), (4, "tiny8"), (4, "allones"), (3, "pow2p1"), (3, "two_bits"),
            (3, "wordedge"), (8, "prec_rel"), (6, "tie"), (4, "tie_pm1"), (8, "rand"), (3, "rand_long"),
            (3, "ones_then_rand"),
        ])
    if cls == "one":
        m = 1
    elif cls == "small":
        m = d.int(1, 1000)
    elif cls == "tiny8":
        m = d.int(1, 255)
    elif cls == "allones":
        k = d.choice([p - 1, p, p + 1, p + 2, 2 * p, 2 * p + 1]) if d.bool() else d.int(1, min(maxbits, 2 * p + 70))
        m = (1 << max(1, k)) - 1
    elif cls == "pow2p1":
        k = d.choice([p - 1, p, p + 1, p + 2, 2 * p, 300, 301]) if d.bool() else d.int(1, min(maxbits, 2 * p + 70))
        m = (1 << max(1, k)) + 1
    elif cls == "two_bits":
        k = d.int(1, min(maxbits, 2 * p + 400))
        j = d.int(0, k - 1)
        m = (1 << k) | (1 << j)
    elif cls == "wordedge":
        k = d.choice([31, 32, 33, 63, 64, 65, 127, 128, 129])
        m = (1 << (k - 1)) | d.bits(k - 1)
    elif cls == "prec_rel":
        k = d.choice([p - 1, p, p + 1, p + 2, p + 3, 2 * p - 1, 2 * p, 2 * p + 1, p + 299, p + 300, p + 301, 10 * p])
        k = max(1, min(k, maxbits))
        style = d.int(0, 2)
        if style == 0:
            m = (1 << (k - 1)) | d.bits(k - 1)
        elif style == 1:
            # random head, zero run, 1 at the end
            h = min(k - 1, p)
            m = (((1 << (h)) | d.bits(h)) << (k - h)) | 1 if k > h else (1 << (k - 1)) | 1
        else:
            h = min(k - 1, p)
            m = ((((1 << h) | d.bits(h)) + 1) << (k - h)) - 1 if k > h else (1 << k) - 1
    elif cls == "tie":
        # (m<<k) | (1<<(k-1)) with m of p bits: exact tie at precision p
        k = d.choice([1, 2, 3, 8, 50, 100, 101, 299, 300, 301]) if d.bool() else d.int(1, 400)
        mm = (1 << (p - 1)) | d.bits(p - 1) if p > 1 else 1
        if d.bool():
            mm |= 1
        m = (mm << k) | (1 << (k - 1))
    elif cls == "tie_pm1":
        k = d.int(2, 400)
        mm = (1 << (p - 1)) | d.bits(p - 1) if p > 1 else 1
        m = (mm << k) | (1 << (k - 1))
        m += d.choice([-1, 1])
    elif cls == "rand":
        k = d.int(1, min(maxbits, 2 * p + 10))
        m = (1 << (k - 1)) | d.bits(k - 1)
    elif cls == "rand_long":
        k = d.int(1, maxbits)
        m = (1 << (k - 1)) | d.bits(k - 1)
    elif cls == "ones_then_rand":
        k = d.int(1, min(maxbits, p + 40))
        j = d.int(0, 64)
        m = (((1 << k) - 1) << j) | d.bits(j)
    else:
        raise ValueError(cls)
    return max(1, m), cls


def exponent(d, bc=1, cls=None, huge=True):
    if cls is None:
        cls = d.weighted([(4, "zero"), (6, "small"), (4, "near1"), (3, "intish"), (3, "med"),
                          (2, "large"), (2 if huge else 0, "huge")])
    if cls == "zero":
        e = 0
    elif cls == "small":
        e = d.int(-70, 70)
    elif cls == "near1":
        e = -bc + d.int(-2, 2)
    elif cls == "intish":
        e = d.int(-3, 3)
    elif cls == "med":
        e = d.int(-1100, 1100)
    elif cls == "large":
        e = d.choice([-1, 1]) * d.int(10**3, 10**6)
    else:
        e = d.choice([-1, 1]) * (1 << d.int(40, 80)) + d.int(-5, 5)
    return e, cls


def mpf_finite(d, p=53, maxbits=4096, huge=True, nonzero=False, signed=True):
    """finite raw mpf, returns raw tuple"""
    if not nonzero and d.int(0, 29) == 0:
        d.label("zero")
        return fzero
    m, mc = mantissa(d, p, maxbits)
    e, ec = exponent(d, m.bit_length(), huge=huge)
    d.label("m:" + mc)
    d.label("e:" + ec)
    s = d.int(0, 1) if signed else 0
    return mk(s, m, e)


def mpf_any(d, p=53, maxbits=4096, huge=True):
    k = d.int(0, 39)
    if k == 0:
        d.label("inf")
        return finf
    if k == 1:
        d.label("-inf")
        return fninf
    if k == 2:
        d.label("nan")
        return fnan
    return mpf_finite(d, p, maxbits, huge)


REL_OFFSETS = [0, 1, -1, 2, -2, 99, -99, 100, -100, 101, -101, 102, -102]


def mpf_relative(d, s, p, maxbits=4096):
    """second operand drawn relative to finite nonzero raw s (for add/sub/div/mod)"""
    ssign, sman, sexp, sbc = s
    if sman == 0:
        return mpf_finite(d, p, maxbits)
    kind = d.weighted([(5, "indep"), (8, "offset"), (4, "delta"), (3, "cancel"), (2, "multiple"), (2, "same"),
                       (6, "edge")])
    d.label("rel:" + kind)
    if kind == "indep":
        return mpf_finite(d, p, maxbits)
    if kind == "same":
        return (d.int(0, 1), sman, sexp, sbc)
    if kind == "cancel":
        # nearly equal magnitude, opposite or same sign, differing in low bits
        k = d.int(0, min(sbc, 80))
        m = sman ^ d.bits(k)
        if m == 0:
            m = 1
        return mk(d.int(0, 1), m, sexp + d.choice([0, 0, 0, 1, -1]))
    if kind == "multiple":
        q = d.int(1, 1 << d.int(1, 70))
        return mk(d.int(0, 1), sman * q, sexp + d.int(-5, 5))
    if kind == "edge":
        # both sides of mpf_add's far-exponent shortcut: exponent offset just above/below 100 while the
        # distance between the top bits is p-2 .. p+6 and the small operand's length straddles the offset
        delta = p + d.int(-2, 6)
        off = d.choice([99, 100, 101, 102, 103, 120, 200]) if d.bool() else d.int(101, 101 + 2 * p)
        tbc = off - delta + sbc          # so that (sexp+sbc) - (texp+tbc) == delta
        tbc += d.choice([0, 0, 0, 1, -1])
        if tbc < 1:
            tbc = d.int(1, 8)
        style = d.int(0, 3)
        if style == 0:
            m = (1 << (tbc - 1)) | d.bits(min(tbc - 1, 64))
        elif style == 1:
            m = (1 << tbc) - 1
        elif style == 2:
            m = (1 << (tbc - 1)) | 1
        else:
            m = (1 << (tbc - 1)) | (d.bits(min(tbc - 1, 64)) << max(0, tbc - 1 - 64))
        t = mk(d.int(0, 1), m, sexp - off)
        return t
    m, mc = mantissa(d, p, maxbits)
    d.label("m2:" + mc)
    tbc = m.bit_length()
    if kind == "offset":
        off = d.choice(REL_OFFSETS + [p + 3, p + 4, p + 5, -(p + 3), -(p + 4), -(p + 5), p + sbc, -(p + tbc),
                                     10**5, -10**5])
        off += d.choice([0, 0, 0, 1, -1])
        # offset between exponents (texp = sexp - off)
        return mk(d.int(0, 1), m, sexp - off)
    # delta: distance between top bits = p+3..p+6 (either order), plus offset>100 variants
    delta = d.choice([p + 2, p + 3, p + 4, p + 5, p + 6, 2 * p + 4, 2 * p + 5, 101, 102, 103]) * d.choice([1, -1])
    # top bit of s is sexp+sbc ; want (texp+tbc) = sexp+sbc - delta
    return mk(d.int(0, 1), m, sexp + sbc - delta - tbc)


def pyfloat(d):
    import struct
    k = d.weighted([(6, "any"), (2, "special"), (3, "int"), (3, "subnormal"), (3, "edge")])
    if k == "any":
        return d.float(allow_nan=False, allow_infinity=False)
    if k == "special":
        return d.choice([0.0, -0.0, float("inf"), float("-inf"), float("nan"), 1.0, -1.0])
    if k == "int":
        return float(d.int(-2**53, 2**53))
    if k == "subnormal":
        return struct.unpack("<d", struct.pack("<Q", d.int(1, (1 << 52) - 1) | (d.int(0, 1) << 63)))[0]
    e = d.choice([1, 2046, 2045, 1023, 1022, 1075, 1076])
    m = d.choice([0, 1, (1 << 52) - 1, (1 << 52) - 2, 1 << 51])
    return struct.unpack("<d", struct.pack("<Q", (d.int(0, 1) << 63) | (e << 52) | m))[0]
