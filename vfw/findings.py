"""known_findings.json handling.  The file is committed and never written at run time."""
import json
import os
from .core import HOME, digest

PATH = os.path.join(HOME, "known_findings.json")


def load(prop=None):
    if not os.path.exists(PATH):
        return []
    with open(PATH) as f:
        data = json.load(f)
    out = data.get("findings", [])
    if prop:
        out = [x for x in out if x.get("property") == prop or prop in x.get("also", [])]
    return out


def matcher(module, only_known=True):
    """returns f(case, bucket) -> finding id or None for entries with status 'known'"""
    entries = [e for e in load(module.ID) if e.get("status") == "known"]
    regions = getattr(module, "REGIONS", {})

    def match(case, bucket):
        for e in entries:
            b = e.get("bucket")
            if b is not None and b != bucket:
                continue
            bp = e.get("bucket_prefix")
            if bp is not None and not bucket.startswith(bp):
                continue
            reg = e.get("region")
            if e.get("scope") == "bucket" and (b is not None or bp is not None):
                # the bucket itself is specific to the defect's shape (the check only emits it when the
                # observed value has exactly the recorded wrong form)
                return e["id"]
            if reg:
                fn = regions.get(reg)
                if fn is None:
                    continue
                try:
                    if fn(case):
                        return e["id"]
                except Exception:
                    continue
            else:
                w = e.get("witness")
                if w is not None and digest(w) == digest(case):
                    return e["id"]
        return None

    return match
